#!/usr/bin/env python3
"""tools/equiv_sweep.py seeded|benign [ids...]: apply each kept patch to a scratch copy of /repo/pyasn1 and report, per changed
function, whether the loader proves it equivalent to the reference form.  For seeded (behaviour-changing) patches a patch
all of whose changed functions are proven equivalent would be a soundness bug of sa/equiv.py."""
import ast, os, shutil, subprocess, sys, tempfile
sys.path.insert(0, os.path.dirname(os.path.dirname(os.path.abspath(__file__))))
from sa import alpha, equiv, inline

VERIF = os.path.dirname(os.path.dirname(os.path.abspath(__file__)))


def changed(tmp):
    out = []
    for d, ds, fs in os.walk(os.path.join(tmp, 'pyasn1')):
        for f in fs:
            if f.endswith('.py'):
                p = os.path.join(d, f)
                rel = os.path.relpath(p, tmp)
                rp = os.path.join('/repo', rel)
                if not os.path.exists(rp) or open(p).read() != open(rp).read():
                    out.append((rel, p))
    return out


def one(kind, sid):
    patch = os.path.join(VERIF, kind, sid, 'patch.diff')
    tmp = tempfile.mkdtemp(prefix='eqs-')
    try:
        shutil.copytree('/repo/pyasn1', tmp + '/pyasn1')
        r = subprocess.run(['patch', '-p1', '-s', '-i', patch], cwd=tmp, capture_output=True, text=True)
        if r.returncode:
            return sid, None, 'patch failed'
        res = []
        for rel, p in changed(tmp):
            tree = ast.parse(open(p).read())
            alpha.normal_form(tree)
            ref = alpha.table().get(rel) or {}
            known = set(ref.get('__functions__', []))
            if known:
                inline.inline_helpers(tree, known)
            reff = alpha.reference_functions(rel)
            cur = dict(alpha.functions(tree))
            for k in sorted(set(cur) | set(reff)):
                if k not in cur or k not in reff:
                    res.append((rel, k, 'only-one-side'))
                    continue
                if alpha._same(cur[k], reff[k]):
                    continue
                ok, why = equiv.equivalent(cur[k], reff[k])
                res.append((rel, k, 'EQUIV' if ok else 'differs(%s)' % why))
            # module / class level statements
            def toplevel(t):
                out = []
                def rec(body):
                    for s in body:
                        if isinstance(s, (ast.FunctionDef,)):
                            continue
                        if isinstance(s, ast.ClassDef):
                            out.append('class %s(%s)' % (s.name, ', '.join(ast.unparse(b) for b in s.bases)))
                            rec(s.body)
                        elif isinstance(s, ast.Expr) and isinstance(s.value, ast.Constant):
                            continue
                        else:
                            out.append(ast.unparse(s))
                rec(t.body)
                return out
            rt = ast.parse(open(os.path.join(alpha.REFDIR, rel + '.txt')).read())
            alpha.normal_form(rt)
            if toplevel(tree) != toplevel(rt):
                res.append((rel, '<module/class level>', 'differs'))
        return sid, res, ''
    finally:
        shutil.rmtree(tmp, ignore_errors=True)


def main(argv):
    kind = argv[0]
    ids = argv[1:] or sorted(x for x in os.listdir(os.path.join(VERIF, kind)) if os.path.isdir(os.path.join(VERIF, kind, x)))
    from concurrent.futures import ProcessPoolExecutor
    allq = 0
    with ProcessPoolExecutor(12) as ex:
        for sid, res, err in ex.map(one, [kind] * len(ids), ids):
            if res is None:
                print(sid, err); continue
            alleq = bool(res) and all(r[2] == 'EQUIV' for r in res)
            allq += alleq
            print('%-10s %s %s' % (sid, 'ALL-EQUIVALENT' if alleq else ('unchanged?' if not res else 'not all'),
                                   '; '.join('%s=%s' % (r[1], r[2]) for r in res)[:300]))
    print('patches with every changed function proven equivalent:', allq, 'of', len(ids))


if __name__ == '__main__':
    main(sys.argv[1:])
