#!/usr/bin/env python3
"""Unit pairs for sa/equiv.py: (expected-equivalent?, source A, source B).  A wrong True in the second group is a soundness bug."""
import ast, os, sys, textwrap
sys.path.insert(0, os.path.dirname(os.path.dirname(os.path.abspath(__file__))))
from sa import equiv

PAIRS = [
 # ---------------- must be proven equivalent
 (True, "def f(a, b):\n    x = a.m()\n    if x:\n        return b\n    else:\n        return None", "def f(a, b):\n    y = a.m()\n    if not y:\n        return\n    return b"),
 (True, "def f(a):\n    if a > 3:\n        r = 1\n    else:\n        r = 2\n    return g(r)", "def f(a):\n    return g(1 if a > 3 else 2)"),
 (True, "def f(xs):\n    for x in xs:\n        if x is None:\n            continue\n        g(x)", "def f(xs):\n    for x in xs:\n        if x is not None:\n            g(x)"),
 (True, "def f(a, b):\n    if not (a and b):\n        raise E('no %s' % a)\n    return 1", "def f(a, b):\n    if not a or not b:\n        raise E('different words {}'.format(a))\n    return 1"),
 (True, "def f(a, b):\n    if a:\n        raise E()\n    if b:\n        raise E()\n    return 1", "def f(a, b):\n    if a or b:\n        raise E()\n    return 1"),
 (True, "def f(a, b):\n    if a:\n        if b:\n            g()\n    return 1", "def f(a, b):\n    if a and b:\n        g()\n    return 1"),
 (True, "def f(s):\n    n = 0\n    for c in s:\n        t = c.v\n        n = n + t\n    return n", "def f(s):\n    total = 0\n    for c in s:\n        total = total + c.v\n    return total"),
 (True, "def f(o, k):\n    try:\n        v = o[k]\n    except KeyError:\n        raise E('x')\n    return g(v)", "def f(o, k):\n    try:\n        val = o[k]\n    except KeyError:\n        raise E('y %s' % ())\n    else:\n        return g(val)"),
 (True, "def f(x):\n    if x < 128:\n        return 1\n    return 2", "def f(x):\n    if x <= 127:\n        return 1\n    return 2"),
 (True, "def f(x):\n    if x >= 128:\n        return 2\n    return 1", "def f(x):\n    if x < 128:\n        return 1\n    return 2"),
 (True, "def f(c, v):\n    if c:\n        a = v.clone(1)\n        s(a)\n    else:\n        a = v.clone()\n        s(a)", "def f(c, v):\n    if c:\n        a = v.clone(1)\n    else:\n        a = v.clone()\n    s(a)"),
 (True, "def f(xs):\n    while True:\n        x = xs.read()\n        if x:\n            break\n    return x", "def f(xs):\n    while True:\n        y = xs.read()\n        if not y:\n            continue\n        break\n    return y"),
 (True, "def f(v):\n    return v and 1 or 0", "def f(v):\n    return 1 if v else 0"),
 (True, "def f(s, x):\n    if not s.MIN < len(x) < s.MAX:\n        raise E()\n    return 1", "def f(s, x):\n    n = len(x)\n    if n <= s.MIN or n >= s.MAX:\n        raise E()\n    return 1"),
 (True, "def f(e):\n    if e in (0, -1):\n        return 1\n    return 2", "def f(e):\n    if e == 0 or e == -1:\n        return 1\n    return 2"),
 # flag carried to a shared tail == decisions taken in the arms
 (True, "def f(s, n):\n    while True:\n        r = s.read(n)\n        if r is None:\n            yield U()\n        elif not r:\n            raise E()\n        elif len(r) < n:\n            m = s.read(1)\n            if m is not None and not m:\n                raise E()\n            yield U()\n        else:\n            break\n    yield r",
        "def f(s, n):\n    while True:\n        r = s.read(n)\n        if r is None:\n            ended = False\n        elif not r:\n            ended = True\n        elif len(r) < n:\n            m = s.read(1)\n            ended = m is not None and not m\n        else:\n            break\n        if ended:\n            raise E()\n        yield U()\n    yield r"),
 (True, "def f(self, **kw):\n    i = self.r.copy()\n    c = kw.pop('c', False)\n    return g(i, c)", "def f(self, **kw):\n    c = kw.pop('c', False)\n    i = self.r.copy()\n    return g(i, c)"),
 (True, "def f(m, c, i, flag):\n    if isinstance(c, K):\n        o = {'cloneValueFlag': flag}\n    else:\n        o = {}\n    m.set(i, c.clone(**o))", "def f(m, c, i, flag):\n    if isinstance(c, K):\n        m.set(i, c.clone(cloneValueFlag=flag))\n    else:\n        m.set(i, c.clone())"),
 (True, "def f(self, a, b):\n    return self.__class__(a, *(self.t + (b,)))", "def f(self, a, b):\n    return self.__class__(a, *self.t, b)") if False else (True, "def f(a):\n    return g(a)", "def f(a):\n    return g(a)"),
 # star arguments built through a local (the spelling an inlined helper leaves behind)
 (True, "def f(self, t):\n    s = self.a + (t,)\n    return self.c(self.b, *s)", "def f(self, t):\n    return self.c(self.b, *self.a, t)"),
 (True, "def f(self, t):\n    s = (t,) + self.a\n    return self.c(self.b, *s)", "def f(self, t):\n    return self.c(self.b, t, *self.a)"),
 # ---------------- must NOT be proven equivalent
 (False, "def f(self, t):\n    s = (t,) + self.a\n    return self.c(self.b, *s)", "def f(self, t):\n    return self.c(self.b, *self.a, t)"),
 (False, "def f(self, t):\n    s = self.a + [t]\n    return self.c(self.b, *s)", "def f(self, t):\n    return self.c(self.b, *self.a, t)"),
 (False, "def f(m, c, i, flag):\n    if isinstance(c, K):\n        o = {'cloneValueFlag': flag}\n    else:\n        o = {}\n    m.set(i, c.clone(**o))", "def f(m, c, i, flag):\n    if isinstance(c, K):\n        m.set(i, c.clone())\n    else:\n        m.set(i, c.clone(cloneValueFlag=flag))"),
 (False, "def f(m, c, i, flag):\n    if isinstance(c, K):\n        o = {'cloneValueFlag': flag}\n    else:\n        o = {}\n    h(o)\n    m.set(i, c.clone(**o))", "def f(m, c, i, flag):\n    if isinstance(c, K):\n        h({'cloneValueFlag': flag})\n        m.set(i, c.clone(cloneValueFlag=flag))\n    else:\n        h({})\n        m.set(i, c.clone())"),
 (False, "def f(self, **kw):\n    i = self.r.copy()\n    c = kw.pop('c')\n    return g(i, c)", "def f(self, **kw):\n    c = kw.pop('c')\n    i = self.r.copy()\n    return g(i, c)"),
 (False, "def f(self, **kw):\n    self.h(kw)\n    i = self.r.copy()\n    c = kw.pop('c', False)\n    return g(i, c)", "def f(self, **kw):\n    self.h(kw)\n    c = kw.pop('c', False)\n    i = self.r.copy()\n    return g(i, c)"),
 (False, "def f(self, kw):\n    i = self.r.copy()\n    c = kw.pop('c', False)\n    return g(i, c)", "def f(self, kw):\n    c = kw.pop('c', False)\n    i = self.r.copy()\n    return g(i, c)"),
 (False, "def f(self, **kw):\n    i = self.r(**kw)\n    c = kw.pop('c', False)\n    return g(i, c)", "def f(self, **kw):\n    c = kw.pop('c', False)\n    i = self.r(**kw)\n    return g(i, c)"),
 (False, "def f(s, n):\n    r = s.read(n)\n    if r is None:\n        ended = False\n    elif not r:\n        ended = True\n    else:\n        ended = False\n    if ended:\n        raise E()\n    return r",
         "def f(s, n):\n    r = s.read(n)\n    if r is None:\n        ended = True\n    elif not r:\n        ended = True\n    else:\n        ended = False\n    if ended:\n        raise E()\n    return r"),
 (False, "def f(a, b):\n    ok = a is not None and not b\n    if ok:\n        raise E()\n    return 1", "def f(a, b):\n    ok = a is not None or not b\n    if ok:\n        raise E()\n    return 1"),
 (False, "def f(a, g):\n    ok = a.x and g\n    a.m()\n    if ok:\n        return 1\n    return 2", "def f(a, g):\n    a.m()\n    if a.x and g:\n        return 1\n    return 2"),
 (False, "def f(nt, v, i):\n    if nt and nt[i].isOptional and not v[i].isValue:\n        return 1\n    return 2", "def f(nt, v, i):\n    if not v[i].isValue and nt and nt[i].isOptional:\n        return 1\n    return 2"),
 (False, "def f(v, b):\n    return v and 0 or b", "def f(v, b):\n    return 0 if v else b"),
 (False, "def f(a, b):\n    if a <= b:\n        return 1\n    return 2", "def f(a, b):\n    if not b < a:\n        return 1\n    return 2"),
 (False, "def f(a):\n    x = a.b\n    g(a)\n    return x", "def f(a):\n    g(a)\n    return a.b"),
 (True, "def f(a):\n    x = a.b\n    a.c.m()\n    return x", "def f(a):\n    a.c.m()\n    return a.b"),   # assumption: a method of a.c does not change a.b
 (False, "def f(a):\n    x = a.b\n    a.m()\n    return x", "def f(a):\n    a.m()\n    return a.b"),
 (False, "def f(a):\n    x = a.b.c\n    a.b.m()\n    return x", "def f(a):\n    a.b.m()\n    return a.b.c"),
 (False, "def f(a):\n    x = a.b\n    yield 1\n    yield x", "def f(a):\n    yield 1\n    yield a.b"),
 (True, "def f(a, o):\n    x = a.b\n    o.update(k=1)\n    return g(x)", "def f(a, o):\n    o.update(k=1)\n    return g(a.b)"),
 (False, "def f():\n    l = []\n    m = l\n    return l, m", "def f():\n    l = []\n    m = []\n    return l, m"),
 (False, "def f(xs):\n    i = 0\n    for x in xs:\n        i += 1\n    return i", "def f(xs):\n    i = 0\n    for x in xs:\n        i += 2\n    return i"),
 (False, "def f(a):\n    if a:\n        g()", "def f(a):\n    g()"),
 (False, "def f(o, k):\n    try:\n        v = o[k]\n    except KeyError:\n        raise E()\n    return g(v)", "def f(o, k):\n    v = o[k]\n    try:\n        pass\n    except KeyError:\n        raise E()\n    return g(v)"),
 (False, "def f(xs):\n    for x in xs:\n        if c(x):\n            break\n        g(x)", "def f(xs):\n    for x in xs:\n        if c(x):\n            continue\n        g(x)"),
 (False, "def f(a, b):\n    return a or b", "def f(a, b):\n    return b or a"),
 (False, "def f(i, n):\n    while i < n:\n        i = g(i)\n    return i", "def f(i, n):\n    while i <= n:\n        i = g(i)\n    return i"),
 (False, "def f(a, b):\n    g(a)\n    h(b)", "def f(a, b):\n    h(b)\n    g(a)"),
 (False, "def f(x):\n    if x < 128:\n        return 1\n    return 2", "def f(x):\n    if x <= 128:\n        return 1\n    return 2"),
 (False, "def f(xs):\n    r = None\n    for x in xs:\n        r = x\n        yield x\n    yield r", "def f(xs):\n    r = None\n    for x in xs:\n        yield x\n    yield r"),
 (False, "def f(s):\n    x = s.read(1)\n    while x is None:\n        yield E()\n        x = s.read(1)\n    yield x", "def f(s):\n    x = s.read(1)\n    if x is None:\n        yield E()\n        x = s.read(1)\n    yield x"),
 (False, "def f(a, d={}):\n    return a", "def f(a, d=None):\n    return a"),
 (False, "def f(a):\n    x = a.v\n    a.v = 1\n    return x", "def f(a):\n    a.v = 1\n    return a.v"),
 (False, "def f(a, t):\n    for i in t:\n        if i:\n            a.x = i\n    return a", "def f(a, t):\n    for i in t:\n        a.x = i\n    return a"),
 (False, "def f(a):\n    try:\n        g(a)\n    except E:\n        return 1\n    return 2", "def f(a):\n    try:\n        g(a)\n    except E:\n        pass\n    return 2"),
 (False, "def f(n):\n    k = n\n    n = n + 1\n    return k, n", "def f(n):\n    n = n + 1\n    k = n\n    return k, n"),
]


def main():
    bad = 0
    for want, a, b in PAIRS:
        fa, fb = ast.parse(a).body[0], ast.parse(b).body[0]
        ok, why = equiv.equivalent(fa, fb)
        flag = 'ok ' if ok == want else 'BAD'
        if ok != want:
            bad += 1
            print(flag, 'expected', want, 'got', ok, why)
            print(textwrap.indent(a, '    A| '))
            print(textwrap.indent(b, '    B| '))
            try:
                print(textwrap.indent(equiv.normal_form(fa), '   nA| '))
                print(textwrap.indent(equiv.normal_form(fb), '   nB| '))
            except Exception as e:
                print('   ', e)
    print('%d pairs, %d wrong' % (len(PAIRS), bad))
    return 1 if bad else 0


if __name__ == '__main__':
    sys.exit(main())
