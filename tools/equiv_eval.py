#!/usr/bin/env python3
"""tools/equiv_eval.py self               normal form of every function of /repo: supported? deterministic?
   tools/equiv_eval.py tree <dir> [-v]    functions of <dir>/pyasn1 that differ from /repo: proven equivalent or not
   tools/equiv_eval.py show <file> <qualname> [<dir>]   print the normal form"""
import ast, os, sys, difflib
sys.path.insert(0, os.path.dirname(os.path.dirname(os.path.abspath(__file__))))
from sa import equiv

REPO = os.environ.get('PYASN1_REF', '/repo')


def functions(tree):
    out = {}
    def rec(body, prefix):
        for s in body:
            if isinstance(s, (ast.FunctionDef,)):
                out[prefix + s.name] = s
            elif isinstance(s, ast.ClassDef):
                rec(s.body, prefix + s.name + '.')
            elif isinstance(s, (ast.If, ast.Try)):
                rec(s.body, prefix); rec(getattr(s, 'orelse', []), prefix)
    rec(tree.body, '')
    return out


def files(root):
    for d, ds, fs in os.walk(os.path.join(root, 'pyasn1')):
        ds.sort()
        for f in sorted(fs):
            if f.endswith('.py'):
                p = os.path.join(d, f)
                yield os.path.relpath(p, root), p


def main(argv):
    if argv[0] == 'self':
        n = sup = 0
        reasons = {}
        for rel, p in files(REPO):
            t = ast.parse(open(p).read())
            for q, fn in functions(t).items():
                n += 1
                try:
                    a = equiv.normal_form(fn)
                    b = equiv.normal_form(ast.parse(ast.unparse(fn)).body[0])
                    assert a == b, (rel, q)
                    sup += 1
                except equiv.Unsupported as e:
                    reasons[str(e)] = reasons.get(str(e), 0) + 1
        print('functions', n, 'supported', sup, reasons)
    elif argv[0] == 'tree':
        d = argv[1]
        verbose = '-v' in argv
        res = []
        for rel, p in files(d):
            rp = os.path.join(REPO, rel)
            if not os.path.exists(rp):
                print('new file', rel); continue
            a, b = open(p).read(), open(rp).read()
            if a == b:
                continue
            fa, fb = functions(ast.parse(a)), functions(ast.parse(b))
            for q in sorted(set(fa) | set(fb)):
                if q not in fa or q not in fb:
                    res.append((rel, q, None, 'only in %s' % ('current' if q in fa else 'reference')))
                    continue
                if ast.dump(fa[q]) == ast.dump(fb[q]):
                    continue
                ok, why = equiv.equivalent(fa[q], fb[q])
                res.append((rel, q, ok, why))
                if verbose and not ok and why == 'normal forms differ':
                    x, y = equiv.normal_form(fb[q]).split('\n'), equiv.normal_form(fa[q]).split('\n')
                    for l in difflib.unified_diff(x, y, 'reference', 'current', lineterm='', n=1):
                        print('   ', l[:230])
        for r in res:
            print('%-28s %-60s %s %s' % (r[0][7:], r[1], {True: 'EQUIVALENT', False: 'not proven', None: '-'}[r[2]], r[3]))
        return 0 if all(r[2] for r in res) else 1
    elif argv[0] == 'show':
        root = argv[3] if len(argv) > 3 else REPO
        t = ast.parse(open(os.path.join(root, argv[1])).read())
        print(equiv.normal_form(functions(t)[argv[2]]))


if __name__ == '__main__':
    sys.exit(main(sys.argv[1:]) or 0)
