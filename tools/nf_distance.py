#!/usr/bin/env python3
"""tools/nf_distance.py seeded|benign: per kept patch, how far the changed functions are from their reference form, measured on
the behavioural normal form (changed lines of the normal form, and new / vanished functions)."""
import ast, os, shutil, subprocess, sys, tempfile, difflib, json
sys.path.insert(0, os.path.dirname(os.path.dirname(os.path.abspath(__file__))))
from sa import alpha, equiv, inline
VERIF = os.path.dirname(os.path.dirname(os.path.abspath(__file__)))

def one(args):
    kind, sid = args
    patch = os.path.join(VERIF, kind, sid, 'patch.diff')
    tmp = tempfile.mkdtemp(prefix='nfd-')
    try:
        shutil.copytree('/repo/pyasn1', tmp + '/pyasn1')
        r = subprocess.run(['patch', '-p1', '-s', '-i', patch], cwd=tmp, capture_output=True, text=True)
        if r.returncode:
            return sid, None
        out = []
        for d, ds, fs in os.walk(tmp + '/pyasn1'):
            for f in fs:
                if not f.endswith('.py'):
                    continue
                p = os.path.join(d, f); rel = os.path.relpath(p, tmp)
                if open(p).read() == open('/repo/' + rel).read():
                    continue
                tree = ast.parse(open(p).read()); alpha.normal_form(tree)
                known = set((alpha.table().get(rel) or {}).get('__functions__', []))
                if known:
                    inline.inline_helpers(tree, known)
                reff = alpha.reference_functions(rel); cur = dict(alpha.functions(tree))
                for k in sorted(set(cur) | set(reff)):
                    if k not in reff:
                        out.append((k, 'new', 0, 0)); continue
                    if k not in cur:
                        out.append((k, 'gone', 0, 0)); continue
                    if alpha._same(cur[k], reff[k]):
                        continue
                    try:
                        a_ = equiv.normal_form(reff[k]).split('\n'); b_ = equiv.normal_form(cur[k]).split('\n')
                        if a_ == b_:
                            out.append((k, 'equiv', 0, len(a_))); continue
                    except Exception:
                        pass
                    ch, lim = alpha.distance(cur[k], reff[k], [tuple(x) for x in (alpha.table().get(rel) or {}).get(k, {}).get('locals', [])])
                    a = [0] * lim
                    out.append((k, 'differs', ch, len(a)))
        return sid, out
    finally:
        shutil.rmtree(tmp, ignore_errors=True)

def main(argv):
    kind = argv[0]
    ids = argv[1:] or sorted(x for x in os.listdir(os.path.join(VERIF, kind)) if os.path.isdir(os.path.join(VERIF, kind, x)))
    from concurrent.futures import ProcessPoolExecutor
    with ProcessPoolExecutor(14) as ex:
        for sid, out in ex.map(one, [(kind, i) for i in ids]):
            if out is None:
                print(sid, 'patch failed'); continue
            diffs = [(k, ch, n) for k, st, ch, n in out if st == 'differs']
            other = [(k, st) for k, st, ch, n in out if st in ('new', 'gone', 'unsupported')]
            mx = max([ch for k, ch, n in diffs] or [0])
            tot = sum(ch for k, ch, n in diffs)
            print('%-10s max=%-4d total=%-4d nfuncs=%d new/gone=%d  %s' % (sid, mx, tot, len(diffs), len(other),
                  '; '.join('%s:%d/%d' % (k.split('.')[-1], ch, n) for k, ch, n in diffs)[:150]))
if __name__ == '__main__':
    main(sys.argv[1:])
