#!/bin/sh
# run every check (quick) and print one summary line per property
cd "$(dirname "$0")/.." || exit 2
rc_all=0
for p in C01 C02 C03 C04 C05 C06 C07 C08 C09 C10 C11 C12 C13 C14 C15 C16 C17 C18 C19 C20; do
  ./check $p "$@" > /tmp/out_$p.txt 2>&1; rc=$?
  echo "$p exit=$rc viol=$(grep -c ^VIOLATION /tmp/out_$p.txt) known=$(grep -c ^KNOWN-FINDING /tmp/out_$p.txt) err=$(grep -c ANALYSIS-ERROR /tmp/out_$p.txt) $(head -1 /tmp/out_$p.txt | sed 's/.*obligations/obligations/' | cut -c1-60)"
  grep "ANALYSIS-ERROR\|^REPORT" /tmp/out_$p.txt | cut -c1-220
  [ $rc -ne 0 ] && rc_all=1
done
exit $rc_all
