#!/usr/bin/env python3
"""Evaluate seeded changes against the checks.

  tools/eval_seeds.py import /tmp/seed          confirm each /tmp/seed/Cnn/seed_k.diff (suite passes, demo fails with /
                                                passes without) and copy the confirmed ones to /verif/seeded/<id>/
  tools/eval_seeds.py run [<id> ...]            apply each kept patch to a scratch copy of /repo and run all checks

Scratch worktrees live under $TMPDIR/pyasn1-seed-eval-* and are removed afterwards.  /repo itself is never edited.
"""
import json
import os
import shutil
import subprocess
import sys
import tempfile

VERIF = os.path.dirname(os.path.dirname(os.path.abspath(__file__)))
REPO = '/repo'
PY = '/venv/bin/python' if os.path.exists('/venv/bin/python') else sys.executable


def sh(cmd, cwd=None, env=None, timeout=900):
    e = dict(os.environ)
    if env:
        e.update(env)
    p = subprocess.run(cmd, shell=True, cwd=cwd, env=e, capture_output=True, text=True, timeout=timeout)
    return p.returncode, p.stdout + p.stderr


def scratch():
    d = tempfile.mkdtemp(prefix='pyasn1-seed-eval-')
    rc, out = sh('git -C %s worktree add -q --detach %s/wt HEAD' % (REPO, d))
    if rc:
        raise SystemExit(out)
    return d, d + '/wt'


def drop(d):
    sh('git -C %s worktree remove --force %s/wt' % (REPO, d))
    shutil.rmtree(d, ignore_errors=True)


def confirm(patch, demo):
    """(ok, details) for one candidate."""
    d, wt = scratch()
    try:
        det = {}
        rc, out = sh('git apply --check %s' % patch, cwd=wt)
        if rc:
            return False, {'error': 'patch does not apply to HEAD: %s' % out[:200]}
        shutil.copy(demo, wt + '/seed_demo.py')
        rc0, out0 = sh('%s seed_demo.py' % PY, cwd=wt, env={'PYTHONPATH': wt}, timeout=300)
        det['demo_without'] = rc0
        sh('git apply %s' % patch, cwd=wt)
        rc, out = sh('%s -m compileall -q pyasn1' % PY, cwd=wt)
        det['compiles'] = rc == 0
        rc1, out1 = sh('%s seed_demo.py' % PY, cwd=wt, env={'PYTHONPATH': wt}, timeout=300)
        det['demo_with'] = rc1
        det['demo_with_tail'] = out1.strip().split('\n')[-3:]
        rc, out = sh('%s -m pytest -q -p no:cacheprovider -n 8 -x 2>&1 | tail -1' % PY, cwd=wt, env={'PYTHONPATH': wt})
        det['suite'] = out.strip()
        ok = det['compiles'] and rc0 == 0 and rc1 != 0 and '1149 passed' in out
        return ok, det
    finally:
        drop(d)


def cmd_import(src, tag=''):
    os.makedirs(VERIF + '/seeded', exist_ok=True)
    for pdir in sorted(os.listdir(src)):
        full = os.path.join(src, pdir)
        if not os.path.isdir(full) or not pdir.startswith('C'):
            continue
        for k in (1, 2, 3):
            patch = os.path.join(full, 'seed_%d.diff' % k)
            demo = os.path.join(full, 'seed_demo_%d.py' % k)
            meta = os.path.join(full, 'seed_meta_%d.json' % k)
            if not (os.path.exists(patch) and os.path.exists(demo)):
                continue
            sid = '%s-%s%d' % (pdir, tag, k)
            dest = os.path.join(VERIF, 'seeded', sid)
            if os.path.exists(dest):
                continue
            ok, det = confirm(patch, demo)
            print(sid, 'CONFIRMED' if ok else 'REJECTED', json.dumps(det)[:300])
            if not ok:
                continue
            os.makedirs(dest)
            shutil.copy(patch, dest + '/patch.diff')
            shutil.copy(demo, dest + '/demo.py')
            m = {}
            if os.path.exists(meta):
                try:
                    m = json.load(open(meta))
                except Exception:
                    m = {}
            m.update({'id': sid, 'property': pdir, 'confirmed': det,
                      'what_i_ran': 'scratch worktree of /repo HEAD: demo exits 0 without the patch; with the patch it compiles, '
                                    'the unedited suite reports 1149 passed and the demo exits non-zero'})
            json.dump(m, open(dest + '/meta.json', 'w'), indent=1)


def cmd_run(ids):
    base = VERIF + '/seeded'
    ids = ids or sorted(os.listdir(base))
    from concurrent.futures import ThreadPoolExecutor
    props = ['C%02d' % i for i in range(1, 21)]
    summary = {}
    for sid in ids:
        patch = os.path.join(base, sid, 'patch.diff')
        if not os.path.exists(patch):
            continue
        d, wt = scratch()
        try:
            rc, out = sh('git apply %s' % patch, cwd=wt)
            if rc:
                print(sid, 'patch does not apply:', out[:100])
                continue

            def one(p):
                rc, out = sh('./check %s --repo %s' % (p, wt), cwd=VERIF)
                rules = sorted(set(l.split('rule=')[1].split(' ')[0] for l in out.split('\n') if l.startswith('REPORT:')))
                err = [l for l in out.split('\n') if 'ANALYSIS-ERROR' in l]
                return p, rc, rules, err
            with ThreadPoolExecutor(8) as ex:
                res = list(ex.map(one, props))
            fired = [(p, rules) for p, rc, rules, err in res if rc == 1]
            errs = [(p, err[0][:120]) for p, rc, rules, err in res if rc == 2]
            meta = json.load(open(os.path.join(base, sid, 'meta.json')))
            own = meta.get('property')
            hit_own = any(p == own for p, _ in fired)
            print('%-8s own=%s %s fired=%s%s' % (sid, own, 'CAUGHT' if hit_own else ('caught-elsewhere' if fired else 'MISSED'),
                                                 fired, (' analysis-errors=%s' % errs) if errs else ''))
            summary[sid] = {'own': own, 'fired': fired, 'errors': errs}
        finally:
            drop(d)
    rp = VERIF + '/seeded/RESULTS.json'
    allres = {}
    if os.path.exists(rp):
        try:
            allres = json.load(open(rp))
        except Exception:
            allres = {}
    allres.update(summary)
    allres = dict((k, v) for k, v in allres.items() if os.path.isdir(os.path.join(base, k)))
    json.dump(allres, open(rp, 'w'), indent=1, sort_keys=True)


if __name__ == '__main__':
    if len(sys.argv) >= 3 and sys.argv[1] == 'import':
        cmd_import(sys.argv[2], sys.argv[3] if len(sys.argv) > 3 else '')
    elif len(sys.argv) >= 2 and sys.argv[1] == 'run':
        cmd_run(sys.argv[2:])
    else:
        print(__doc__)
