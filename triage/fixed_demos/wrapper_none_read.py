import io
from pyasn1.codec.ber import decoder
from pyasn1.codec import streaming
from pyasn1.type import univ
from pyasn1 import error
class Pipe(io.RawIOBase):
    """non-seekable, non-blocking: read() answers None while nothing has arrived"""
    def __init__(self, script): self.script=list(script); self.closed_=False
    def readable(self): return True
    def seekable(self): return False
    def read(self, n=-1):
        if not self.script: return b''
        x=self.script[0]
        if x is None: self.script.pop(0); return None
        if n is None or n<0 or n>=len(x): self.script.pop(0); return x
        self.script[0]=x[n:]; return x[:n]
data=bytes.fromhex('300602010a020114')
for script in ([data], [data[:3], None, data[3:]], [None, data], [data[:1], None, None, data[1:]]):
    out=[]; under=0
    s=Pipe(script)
    try:
        for o in decoder.StreamingDecoder(s, asn1Spec=None):
            if isinstance(o, error.SubstrateUnderrunError):
                under+=1
                if under>50: raise SystemExit('livelock')
                continue
            out.append(o)
    except Exception as e:
        print(script, 'RAISED', type(e).__name__, e); raise SystemExit(1)
    print(script, [x.prettyPrint().replace('\n',' ') for x in out], under)
