from pyasn1.type import univ, tag, char
from pyasn1.codec.ber import encoder, decoder
from pyasn1.codec.cer import encoder as cenc, decoder as cdec
bad=0
for name, spec in (('impl', univ.OctetString().subtype(implicitTag=tag.Tag(tag.tagClassContext, tag.tagFormatSimple, 5))),
                   ('expl', univ.OctetString().subtype(explicitTag=tag.Tag(tag.tagClassContext, tag.tagFormatConstructed, 5))),
                   ('utf8', char.UTF8String()),
                   ('bits', univ.BitString().subtype(implicitTag=tag.Tag(tag.tagClassContext, tag.tagFormatSimple, 6)))):
    if name=='bits':
        py='1010101111001101'*3; obj=spec.clone(py)
    else:
        py=b'abcdefgh'; obj=spec.clone(py)
    a=encoder.encode(py, asn1Spec=spec, maxChunkSize=2 if name=='bits' else 4)
    b=encoder.encode(obj, maxChunkSize=2 if name=='bits' else 4)
    print(name, a.hex(), b.hex(), a==b)
    if a!=b: bad+=1
    try:
        d,r=decoder.decode(a, asn1Spec=spec); assert d==obj and not r
    except Exception as e:
        print('  decode failed', type(e).__name__, str(e)[:80]); bad+=1
big=b'x'*2500
a=cenc.encode(big, asn1Spec=char.UTF8String()); b=cenc.encode(char.UTF8String(big.decode()))
print('cer utf8', a[:12].hex(), b[:12].hex(), a==b); bad+= a!=b
raise SystemExit(1 if bad else 0)
