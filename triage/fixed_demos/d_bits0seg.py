from pyasn1.type import univ, tag
from pyasn1.codec.ber import decoder
from pyasn1.codec.cer import decoder as cdec
from pyasn1.codec.der import decoder as ddec
from pyasn1 import error
bad = 0
for hx, spec in (('2300', univ.BitString()), ('23800000', univ.BitString()), ('2300', None), ('a5022300', univ.BitString().subtype(explicitTag=tag.Tag(tag.tagClassContext, tag.tagFormatConstructed, 5))),
                 ('a500', univ.BitString().subtype(implicitTag=tag.Tag(tag.tagClassContext, tag.tagFormatSimple, 5)))):
    for name, dec in (('ber', decoder.decode), ('cer', cdec.decode)):
        try:
            v, r = dec(bytes.fromhex(hx), asn1Spec=spec) if spec is not None else dec(bytes.fromhex(hx))
            ok = len(v) == 0 and not r
        except error.PyAsn1Error as e:
            ok = False; v = str(e)[:50]
        print(hx, name, ok, v if not ok else '')
        bad += not ok
# the primitive form without the unused-bits octet stays malformed; DER refuses the constructed form
for hx, dec in (('0300', decoder.decode), ('2300', ddec.decode)):
    try:
        dec(bytes.fromhex(hx), asn1Spec=univ.BitString()); print(hx, 'accepted!'); bad += 1
    except error.PyAsn1Error:
        pass
raise SystemExit(1 if bad else 0)
