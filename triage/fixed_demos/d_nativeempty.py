from pyasn1.type import univ, namedtype
from pyasn1.codec.native import encoder as nenc, decoder as ndec
from pyasn1.codec.ber import encoder as benc
class L(univ.SequenceOf): componentType = univ.Integer()
class T(univ.SetOf): componentType = univ.Integer()
class S(univ.Sequence):
    componentType = namedtype.NamedTypes(namedtype.NamedType('k', univ.Integer()), namedtype.OptionalNamedType('l', L()), namedtype.OptionalNamedType('t', T()))
bad = 0
for typ in (L, T):
    v = typ(); v.clear()
    py = nenc.encode(v)
    back = ndec.decode(py, asn1Spec=typ())
    print(typ.__name__, py, back.isValue, back == v if back.isValue else None)
    bad += not back.isValue
s = S(); s['k'] = 0; s['l'].clear(); s['t'].clear()
py = nenc.encode(s); back = ndec.decode(py, asn1Spec=S())
a, b = benc.encode(s), benc.encode(back)
print(dict(py), a.hex(), b.hex()); bad += a != b
raise SystemExit(1 if bad else 0)
