from pyasn1.type import univ, namedtype
from pyasn1.codec.ber import encoder, decoder
from pyasn1.codec.cer import encoder as cenc, decoder as cdec
class C(univ.Choice):
    componentType = namedtype.NamedTypes(
        namedtype.NamedType('n', univ.Integer()),
        namedtype.NamedType('so', univ.SequenceOf(componentType=univ.Integer())),
        namedtype.NamedType('st', univ.SetOf(componentType=univ.Integer())))
class S(univ.Sequence):
    componentType = namedtype.NamedTypes(namedtype.NamedType('c', C()), namedtype.NamedType('k', univ.Integer()))
bad = 0
for alt in ('so', 'st'):
    for fill in ([], [1], [0]):
        c = C(); c[alt].clear(); c[alt].extend(fill)
        s = S(); s['c'] = c; s['k'] = 7
        for name, v, spec in (('choice', c, C()), ('in-seq', s, S())):
            for enc, dec, en in ((lambda x: encoder.encode(x, defMode=False), decoder.decode, 'ber-indef'), (cenc.encode, cdec.decode, 'cer'), (cenc.encode, decoder.decode, 'cer->ber')):
                e = enc(v)
                try:
                    d, r = dec(e, asn1Spec=spec)
                    ok = (d == v) and not r
                except Exception as x:
                    ok = False; d = '%s: %s' % (type(x).__name__, str(x)[:60])
                if not ok:
                    bad += 1; print(alt, fill, name, en, e.hex(), '->', d)
print('violations', bad)
raise SystemExit(1 if bad else 0)
