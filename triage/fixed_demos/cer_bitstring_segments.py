from pyasn1.type import univ
from pyasn1.codec.cer import encoder, decoder
from pyasn1.codec.der import encoder as denc
from pyasn1.codec.ber import decoder as bdec
def segs(e):
    # return list of contents-octet counts of the segments (or [n] for primitive)
    assert e[0] in (0x03, 0x23)
    if e[0]==0x03:
        l=e[1]; 
        if l&0x80: n=l&0x7f; l=int.from_bytes(e[2:2+n],'big')
        return ('prim',[l])
    assert e[1]==0x80
    i=2; out=[]
    while e[i:i+2]!=b'\0\0':
        assert e[i]==0x03
        l=e[i+1]; i+=2
        if l&0x80: n=l&0x7f; l=int.from_bytes(e[i:i+n],'big'); i+=n
        out.append(l); i+=l
    return ('cons',out)
for nbits in (7992, 7993, 8000, 8001, 15984, 15985, 16000, 20001):
    v=univ.BitString('1'*nbits)
    e=encoder.encode(v)
    kind,ls=segs(e)
    d,r=decoder.decode(e, asn1Spec=univ.BitString()); d2,_=bdec.decode(e)
    assert d==v and not r and d2==v and len(d)==nbits, nbits
    print(nbits, kind, ls)
    assert all(x<=1000 for x in ls), ('segment longer than 1000 contents octets', nbits, ls)
    assert all(x==1000 for x in ls[:-1]), ls
    assert (kind=='prim') == (1+(nbits+7)//8 <= 1000), (kind, nbits)
    assert denc.encode(v)[0]==0x03
print('ok')
