from pyasn1.type import univ, constraint
from pyasn1 import error
class T(univ.Integer):
    subtypeSpec = constraint.ConstraintsUnion(constraint.SingleValueConstraint(1), constraint.SingleValueConstraint(2), constraint.ValueRangeConstraint(10, 12))
D = T().subtype(subtypeSpec=constraint.ValueRangeConstraint(2, 11))
bad = 0
for v in range(0, 25):
    def admits(o):
        try: o.clone(v); return True
        except error.PyAsn1Error: return False
    p, d = admits(T()), admits(D)
    want = p and 2 <= v <= 11
    if d != want: print('value', v, 'parent', p, 'derived', d, 'expected', want); bad += 1
assert T().isSuperTypeOf(D) and D.subtypeSpec.isSubTypeOf(T.subtypeSpec), 'derivation not recognised'
assert not D.isSuperTypeOf(T())
raise SystemExit(1 if bad else 0)
