from pyasn1.type import univ, namedtype
from pyasn1.codec.der import encoder
class L(univ.SequenceOf): componentType = univ.Integer()
class S(univ.Sequence):
    componentType = namedtype.NamedTypes(namedtype.NamedType('l', L()), namedtype.NamedType('k', univ.Integer()))
bad = 0
# 1. schema object: clone(cloneValueFlag=True) must give a schema object, not raise
try:
    c = L().clone(cloneValueFlag=True); assert not c.isValue
except Exception as e:
    print('schema clone raised', type(e).__name__, e); bad += 1
# 2. an emptied list is a value; so is its copy
l = L(); l.clear()
for how, c in (('clone', l.clone(cloneValueFlag=True)), ('subtype', l.subtype(cloneValueFlag=True))):
    print(how, l.isValue, c.isValue)
    if c.isValue != l.isValue: bad += 1
# 3. the copy of a record holding an emptied list encodes like the record
s = S(); s['l'].clear(); s['k'] = 1
c = s.clone(cloneValueFlag=True)
try:
    a, b = encoder.encode(s), encoder.encode(c)
    print(a.hex(), b.hex()); bad += a != b
except Exception as e:
    print('encode of the copy raised', type(e).__name__, str(e)[:80]); bad += 1
raise SystemExit(1 if bad else 0)
