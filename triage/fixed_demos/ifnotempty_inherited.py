from pyasn1.type import univ, namedtype
from pyasn1.codec.der import encoder, decoder
from pyasn1.codec.cer import encoder as cenc
class Inner(univ.SequenceOf): componentType=univ.Integer()
class Outer(univ.SequenceOf): componentType=Inner()
class S(univ.Sequence):
    componentType=namedtype.NamedTypes(namedtype.OptionalNamedType('f', Outer()), namedtype.NamedType('g', univ.Integer()))
s=S(); s['g']=1
o=s['f']; i=Inner(); i.clear(); o.append(i)
print(s.prettyPrint())
e=encoder.encode(s); print(e.hex())
d,_=decoder.decode(e, asn1Spec=S()); print(d.prettyPrint()); assert d == s and d["f"].isValue
print(cenc.encode(s).hex())
