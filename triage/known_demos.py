"""Witnesses for the entries of /verif/known_findings.json -- documentation, NOT a check.

Run:  /venv/bin/python /verif/triage/known_demos.py
Each block prints what the real code does for the input named in the finding's `demo` field.
Nothing in MANIFEST.json refers to this file; the deciding step of every check is static.
"""
import io
import sys
from pyasn1.type import univ, char, namedtype, tag, constraint
from pyasn1.codec.ber import encoder as be, decoder as bd
from pyasn1.codec.cer import encoder as ce, decoder as cd
from pyasn1.codec.der import encoder as de
from pyasn1.codec.native import encoder as ne


def t(name, f):
    try:
        print('%-52s -> %r' % (name, f()))
    except BaseException as e:
        print('%-52s !! %s: %s' % (name, type(e).__name__, str(e)[:80]))


print('--- A8.pair (C01 C02 C03 C07): end-of-octets after a definite header')
v = univ.Integer(5).subtype(explicitTag=tag.Tag(tag.tagClassContext, tag.tagFormatConstructed, 1))
t('ber defMode=False', lambda: be.encode(v, defMode=False).hex())
t('cer', lambda: ce.encode(v).hex())
t('decode(ber indef) remainder', lambda: bd.decode(be.encode(v, defMode=False), asn1Spec=v)[1])

print('--- A7.unit (C01 C02): REPAIRED in /repo (9f85bcf): chunks were slices of characters, measured in octets')
sys.setrecursionlimit(200)
t('cer.encode(UTF8String(e-acute * 1001))', lambda: len(ce.encode(char.UTF8String(chr(233) * 1001))))
t('ber.encode(UTF8String(e-acute * 5), maxChunkSize=4)', lambda: be.encode(char.UTF8String(chr(233) * 5), maxChunkSize=4).hex())
sys.setrecursionlimit(1000)

print('--- A7.nested (C09): nested constructed string segments')
t('24 07 24 05 04 03 abc', lambda: bytes(bd.decode(bytes.fromhex('24072405040361626 3'.replace(' ', '')))[0]))
t('23 06 23 04 03 02 00 aa', lambda: bd.decode(bytes.fromhex('23062304030200aa'))[0].prettyPrint())
t('23 80 23 80 03 02 00 aa 00 00 00 00', lambda: bd.decode(bytes.fromhex('23802380030200aa00000000'))[0].prettyPrint())

print('--- C10.cons (C10): size constraint not enforced by the decoder')
S = univ.SequenceOf(componentType=univ.Integer()).subtype(subtypeSpec=constraint.ValueSizeConstraint(1, 2))
enc3 = be.encode(univ.SequenceOf(componentType=univ.Integer()).setComponents(1, 2, 3))
t('decode 3 INTEGERs under SIZE(1..2)', lambda: len(bd.decode(enc3, asn1Spec=S)[0]))
t('encode(result)', lambda: be.encode(bd.decode(enc3, asn1Spec=S)[0]).hex())
t('decode indefinite form', lambda: len(bd.decode(be.encode(univ.SequenceOf(componentType=univ.Integer()).setComponents(1, 2, 3), defMode=False), asn1Spec=S)[0]))

print('--- A12.origin (C11): element larger than the read-ahead buffer through a non-seekable stream')


class NonSeekable(io.RawIOBase):
    def __init__(self, data):
        self._b = io.BytesIO(data)

    def readable(self):
        return True

    def seekable(self):
        return False

    def read(self, n=-1):
        return self._b.read(n)


big = univ.SequenceOf(componentType=univ.OctetString())
big.extend([b'x' * 100] * 200)
data = be.encode(big)
t('decode(bytes) length', lambda: len(bd.decode(data)[0]))
t('decode(non-seekable stream)', lambda: len(bd.decode(NonSeekable(data))[0]))

print('--- A5.value (C12): encoding instantiates placeholders in the value')


def mk(base):
    class R(base):
        componentType = namedtype.NamedTypes(namedtype.NamedType('a', univ.Integer()),
                                             namedtype.OptionalNamedType('b', univ.OctetString()))
    return R


for base in (univ.Sequence, univ.Set):
    for nm, enc in (('ber', be.encode), ('cer', ce.encode), ('native', ne.encode)):
        R = mk(base)
        r = R()
        r['a'] = 1
        r2 = R()
        r2['a'] = 1
        before = (r2 == r)
        enc(r)
        t('%s %s: r2 == r before %r, after encode(r)' % (base.__name__, nm, before), lambda: r2 == r)
for nm, enc in (('ber', be.encode), ('native', ne.encode)):
    s = univ.SequenceOf(componentType=univ.Integer())
    s[1] = 5
    before = (s == [5], len(s.components))
    try:
        enc(s)
    except Exception:
        pass
    t('sparse SequenceOf %s: (s == [5], len(components)) before %r, after' % (nm, before), lambda: (s == [5], len(s.components)))

print('--- A10.bounds (C19): a read beyond the end grows the value')
s = univ.SequenceOf(componentType=univ.Integer())
s.extend([1, 2])
t('len before', lambda: len(s))
t('s[10]', lambda: s[10].isValue)
t('len after', lambda: (len(s), s.isValue))

print('--- A11.trim (C20): CER time trim deletes inner zeros')
from pyasn1.type import useful
t("cer GeneralizedTime('20200102030405.0500Z')", lambda: ce.encode(useful.GeneralizedTime('20200102030405.0500Z'))[2:])
t("cer GeneralizedTime('20170801120112.099Z')", lambda: ce.encode(useful.GeneralizedTime('20170801120112.099Z'))[2:])

print('--- C10.cons record exits')
from pyasn1.type import opentype
WC = constraint.WithComponentsConstraint(('b', constraint.ComponentPresentConstraint()))


class Rec(univ.Sequence):
    componentType = namedtype.NamedTypes(namedtype.NamedType('a', univ.Integer()),
                                         namedtype.OptionalNamedType('b', univ.OctetString()))
    subtypeSpec = constraint.ConstraintsIntersection(WC)


class RecOpen(univ.Sequence):
    componentType = namedtype.NamedTypes(namedtype.NamedType('a', univ.Integer()),
                                         namedtype.OptionalNamedType('b', univ.OctetString()),
                                         namedtype.OptionalNamedType('c', univ.Any(), openType=opentype.OpenType('a', {1: univ.Integer()})))
    subtypeSpec = constraint.ConstraintsIntersection(WC)


t('definite record violating WITH COMPONENTS (b PRESENT)', lambda: bd.decode(bytes.fromhex('3003020101'), asn1Spec=Rec())[0].prettyPrint())
t('  ... the encoder refuses that value', lambda: be.encode(bd.decode(bytes.fromhex('3003020101'), asn1Spec=Rec())[0]))
t('indefinite record (no open types): checked', lambda: bd.decode(bytes.fromhex('30800201010000'), asn1Spec=Rec())[0].prettyPrint())
t('indefinite record with open types: not checked', lambda: bd.decode(bytes.fromhex('30800201010000'), asn1Spec=RecOpen())[0].prettyPrint())
Bare = univ.Sequence(subtypeSpec=constraint.ValueSizeConstraint(5, 5))
t('indefinite SEQUENCE without declared components, SIZE(5)', lambda: bd.decode(bytes.fromhex('30800201010000'), asn1Spec=Bare)[0].prettyPrint())
t('definite  SEQUENCE without declared components, SIZE(5)', lambda: bd.decode(bytes.fromhex('3003020101'), asn1Spec=Bare)[0].prettyPrint())

print('--- C04.readers (C04): reads store placeholders')


class Inner(univ.Sequence):
    componentType = namedtype.NamedTypes(namedtype.OptionalNamedType('x', univ.Integer()), namedtype.OptionalNamedType('y', univ.Integer()))


class Outer(univ.Sequence):
    componentType = namedtype.NamedTypes(namedtype.DefaultedNamedType('d', Inner()))


o = Outer()
t('der(o) before the read', lambda: de.encode(o).hex())
t('o[0][1].isValue', lambda: o[0][1].isValue)
t('der(o) after the read', lambda: de.encode(o).hex())
s2 = univ.SequenceOf(componentType=univ.Integer())
s2.extend([1, 2])
t('der(s) before', lambda: de.encode(s2).hex())
t('s[2].isValue', lambda: s2[2].isValue)
t('der(s) after', lambda: de.encode(s2).hex())
