"""Hand triage from the design round (2026-09-23) — NOT a check.

These are the concrete inputs used to tell genuine pyasn1 defects from analysis
artefacts before arming static rules (DESIGN.md section 7).  Nothing in
MANIFEST.json refers to this file; the deciding step of every check is static.
Run:  /venv/bin/python /verif/triage/demos_round0.py
Each line prints  <label> -> <result>  or  <label> !! <ExceptionType>: <message>.
"""
# ---- from e1.py
import io, traceback
from pyasn1.type import univ, char, useful, namedtype, tag, constraint
from pyasn1.codec.ber import encoder as bere, decoder as berd
from pyasn1.codec.cer import encoder as cere, decoder as cerd
from pyasn1.codec.der import encoder as dere, decoder as derd
from pyasn1 import error
def t(name, f):
    try:
        r = f()
        print('%-40s -> %r' % (name, r))
    except BaseException as e:
        print('%-40s !! %s: %s' % (name, type(e).__name__, str(e)[:100]))

# C15: DER strictness w/ and w/o spec
t('der bool 01 nospec', lambda: derd.decode(bytes([1,1,1])))
t('der bool 01 spec', lambda: derd.decode(bytes([1,1,1]), asn1Spec=univ.Boolean()))
t('cer bool 01 spec', lambda: cerd.decode(bytes([1,1,1]), asn1Spec=univ.Boolean()))
t('der constructed octet nospec', lambda: derd.decode(bytes([0x24,3,4,1,65])))
t('der constructed octet spec', lambda: derd.decode(bytes([0x24,3,4,1,65]), asn1Spec=univ.OctetString()))
t('der constructed utf8 nospec', lambda: derd.decode(bytes([0x2c,3,12,1,65])))
t('der indef seq', lambda: derd.decode(bytes([0x30,0x80,2,1,1,0,0])))
# C08: empty fragment in constructed bitstring
t('ber constructed bitstring empty frag', lambda: berd.decode(bytes([0x23,2,3,0])))
t('ber constructed bitstring indef empty frag', lambda: berd.decode(bytes([0x23,0x80,3,0,0,0])))
t('ber oid empty after 0x80?', lambda: berd.decode(bytes([6,1,0x81])))
t('ber real bin n=4 empty', lambda: berd.decode(bytes([9,2,0x83,0])))
t('ber real bin short', lambda: berd.decode(bytes([9,2,0x83,5])))
t('ber real nr1 junk', lambda: berd.decode(bytes([9,2,1,65])))
t('ber long tag eof', lambda: berd.decode(bytes([0x1f])))
t('ber recursiveFlag', lambda: berd.decode(bytes([0x30,3,2,1,1]), recursiveFlag=False))
# C17 optional missing in python mapping
class R(univ.Sequence):
    componentType = namedtype.NamedTypes(
        namedtype.NamedType('id', univ.Integer()),
        namedtype.OptionalNamedType('room', univ.Integer().subtype(implicitTag=tag.Tag(tag.tagClassContext, tag.tagFormatSimple, 0))),
        namedtype.DefaultedNamedType('house', univ.Integer(0).subtype(implicitTag=tag.Tag(tag.tagClassContext, tag.tagFormatSimple, 1))))
t('ber py mapping w/o optional', lambda: bere.encode({'id': 1, 'house': 0}, asn1Spec=R()))
t('ber py mapping full', lambda: bere.encode({'id': 1, 'room':2, 'house': 0}, asn1Spec=R()))
# C03 set ordering under explicit tags
class S(univ.Set):
    componentType = namedtype.NamedTypes(
        namedtype.NamedType('a', univ.Integer().subtype(explicitTag=tag.Tag(tag.tagClassContext, tag.tagFormatConstructed, 1))),
        namedtype.NamedType('b', univ.OctetString().subtype(explicitTag=tag.Tag(tag.tagClassContext, tag.tagFormatConstructed, 0))))
s=S(); s['a']=1; s['b']=b'x'
t('der set explicit order', lambda: dere.encode(s).hex())
class S2(univ.Set):
    componentType = namedtype.NamedTypes(
        namedtype.NamedType('a', univ.OctetString().subtype(explicitTag=tag.Tag(tag.tagClassContext, tag.tagFormatConstructed, 0))),
        namedtype.NamedType('b', univ.Integer().subtype(explicitTag=tag.Tag(tag.tagClassContext, tag.tagFormatConstructed, 1))))
s=S2(); s['a']=b'x'; s['b']=1
t('der set explicit order2', lambda: dere.encode(s).hex())
# C02 long char string CER
t('cer utf8 long', lambda: len(cere.encode(char.UTF8String('é'*1001))))
t('cer utf8 long ascii', lambda: cerd.decode(cere.encode(char.UTF8String('a'*1001)))[0] == 'a'*1001)
t('cer bmp long', lambda: len(cere.encode(char.BMPString('a'*1001))))
# explicit tagged primitive in indef mode
x = univ.Integer(5).subtype(explicitTag=tag.Tag(tag.tagClassContext, tag.tagFormatConstructed, 1))
t('ber indef explicit int enc', lambda: bere.encode(x, defMode=False).hex())
t('ber indef explicit int dec', lambda: berd.decode(bere.encode(x, defMode=False), asn1Spec=x))
t('ber indef explicit int dec nospec', lambda: berd.decode(bere.encode(x, defMode=False)))

# ---- from e2.py
import io, traceback, datetime
from pyasn1.type import univ, char, useful, namedtype, tag, constraint, opentype
from pyasn1.codec.ber import encoder as bere, decoder as berd
from pyasn1.codec.cer import encoder as cere, decoder as cerd
from pyasn1.codec.der import encoder as dere, decoder as derd
from pyasn1.codec.native import encoder as nate, decoder as natd
from pyasn1.codec import streaming
from pyasn1 import error
def t(name, f):
    try:
        r = f()
        print('%-40s -> %r' % (name, r))
    except BaseException as e:
        print('%-40s !! %s: %s' % (name, type(e).__name__, str(e)[:100]))

# C12: encode mutates value?
class R(univ.Sequence):
    componentType = namedtype.NamedTypes(
        namedtype.NamedType('id', univ.Integer()),
        namedtype.OptionalNamedType('room', univ.Integer().subtype(implicitTag=tag.Tag(tag.tagClassContext, tag.tagFormatSimple, 0))),
        namedtype.DefaultedNamedType('house', univ.Integer(0).subtype(implicitTag=tag.Tag(tag.tagClassContext, tag.tagFormatSimple, 1))))
r=R(); r['id']=1
print('before', r._componentValues)
bere.encode(r)
print('after', r._componentValues)
r2=R(); r2['id']=1
t('r2==r after encode of r', lambda: r2==r)
r3=R(); r3['id']=1
t('r2==r3 both unencoded', lambda: r2==r3)
# C19
so=univ.SequenceOf(componentType=univ.Integer()); so.extend([3,1,2])
t('seqof reverse', lambda: so.reverse())
c=univ.Choice(componentType=namedtype.NamedTypes(namedtype.NamedType('a',univ.Integer()),namedtype.NamedType('b',univ.OctetString())))
t('iter empty choice', lambda: list(c))
c['a']=1
c.reset()
t('choice reset isValue', lambda: c.isValue)
t('choice reset len', lambda: len(c))
t('Integer()+1', lambda: univ.Integer()+1)
t('Integer()==1', lambda: univ.Integer()==1)
t('hash(Integer())', lambda: hash(univ.Integer()))
t('OctetString().asOctets()', lambda: univ.OctetString().asOctets())
t('bool(OctetString())', lambda: bool(univ.OctetString()))
t('len(seqof[10])', lambda: (so[10], len(so)))
# C20
G=useful.GeneralizedTime; U=useful.UTCTime
tz=lambda m: datetime.timezone(datetime.timedelta(minutes=m))
for m in (0, 60, 90, -60, -1, 330):
    dt=datetime.datetime(2020,1,2,3,4,5,5000,tzinfo=tz(m))
    t('G fromDateTime %d'%m, lambda: (str(G.fromDateTime(dt)), G.fromDateTime(dt).asDateTime == dt))
t('G .5', lambda: G('20200102030405.5Z').asDateTime)
t('G .500', lambda: G('20200102030405.500Z').asDateTime)
t('der G .500', lambda: dere.encode(G('20200102030405.500Z')))
t('der G .000', lambda: dere.encode(G('20200102030405.000Z')))
t('der G .0500', lambda: dere.encode(G('20200102030405.0500Z')))
t('der G .1000000', lambda: dere.encode(G('20200102030405.1000000Z')))
t('der G noZ', lambda: dere.encode(G('20200102030405')))
t('der U', lambda: dere.encode(U('200102030405Z')))
t('der U nosec', lambda: dere.encode(U('2001020304Z')))
# C10: size constraint on SequenceOf with over-long input
so2=univ.SequenceOf(componentType=univ.Integer()).subtype(subtypeSpec=constraint.ValueSizeConstraint(1,2))
enc=bere.encode(univ.SequenceOf(componentType=univ.Integer()).setComponents(1,2,3))
t('decode oversize seqof', lambda: berd.decode(enc, asn1Spec=so2))
# duplicate SET members
class S(univ.Set):
    componentType = namedtype.NamedTypes(namedtype.NamedType('a', univ.Integer()), namedtype.NamedType('b', univ.OctetString()))
t('decode dup set member', lambda: berd.decode(bytes([0x31,9,2,1,1,2,1,2,4,1,65]), asn1Spec=S())[0].prettyPrint())
# C16 empty seq schemaless
t('decode empty seq', lambda: berd.decode(bytes([0x30,0])))
t('decode empty set indef', lambda: berd.decode(bytes([0x31,0x80,0,0])))
t('decode explicit empty seq', lambda: berd.decode(bytes([0xa0,2,0x30,0])))

# ---- from e3.py
import io, traceback, datetime, os
from pyasn1.type import univ, char, useful, namedtype, tag, constraint, opentype
from pyasn1.codec.ber import encoder as bere, decoder as berd
from pyasn1.codec.cer import encoder as cere, decoder as cerd
from pyasn1.codec.der import encoder as dere, decoder as derd
from pyasn1.codec.native import encoder as nate, decoder as natd
from pyasn1.codec import streaming
from pyasn1 import error
def t(name, f):
    try:
        r = f()
        print('%-40s -> %r' % (name, r))
    except BaseException as e:
        print('%-40s !! %s: %s' % (name, type(e).__name__, str(e)[:100]))
# C06 cuts
t('cut bitstring after len', lambda: berd.decode(bytes([3,2])))
t('cut bitstring after len spec', lambda: berd.decode(bytes([3,2]), asn1Spec=univ.BitString()))
t('cut after tag', lambda: berd.decode(bytes([3])))
t('cut in long len', lambda: berd.decode(bytes([4,0x82,1])))
t('cut in content', lambda: berd.decode(bytes([4,5,1,2])))
t('cut indef 1 byte eoo', lambda: berd.decode(bytes([0x30,0x80,2,1,1,0])))
t('cut indef no eoo', lambda: berd.decode(bytes([0x30,0x80,2,1,1])))
t('cut long tag', lambda: berd.decode(bytes([0x1f,0x81])))
t('empty', lambda: berd.decode(b''))
t('cut constructed octet frag', lambda: berd.decode(bytes([0x24,6,4,1,65])))
t('cut seq def', lambda: berd.decode(bytes([0x30,6,2,1,1])))
t('real nan', lambda: berd.decode(bytes([9,4,2])+b'nan'))
t('real NR3 1e400', lambda: berd.decode(bytes([9,6,3])+b'1e400'))
# C09 constructed char string with OCTET STRING fragments (X.690 conformant)
t('utf8 constructed w/ octet frags', lambda: berd.decode(bytes([0x2c,3,4,1,65]), asn1Spec=char.UTF8String()))
t('utf8 constructed w/ utf8 frags', lambda: berd.decode(bytes([0x2c,3,12,1,65]), asn1Spec=char.UTF8String()))
t('bool 02', lambda: berd.decode(bytes([1,1,2])))
t('len overlong', lambda: berd.decode(bytes([2,0x83,0,0,1,5])))
# non-blocking seekable stream (not BytesIO)
class NB(io.RawIOBase):
    def __init__(self, data, sched):
        self.data=data; self.pos=0; self.avail=0; self.sched=list(sched)
    def seekable(self): return True
    def readable(self): return True
    def tell(self): return self.pos
    def seek(self, n, whence=0):
        if whence==0: self.pos=n
        elif whence==1: self.pos+=n
        else: self.pos=self.avail+n
        return self.pos
    def read(self, n=-1):
        if self.pos>=self.avail:
            if self.avail>=len(self.data): return b''
            return None
        end=self.avail if n<0 else min(self.avail,self.pos+n)
        r=self.data[self.pos:end]; self.pos=end; return r
def drive(data, step, spec=None, dec=berd):
    s=NB(data,[]); out=[]
    it=iter(dec.StreamingDecoder(s, asn1Spec=spec))
    n=0
    while True:
        n+=1
        if n>1000: out.append('LOOP'); break
        try: x=next(it)
        except StopIteration: break
        except Exception as e: out.append('%s:%s'%(type(e).__name__, e)); break
        if isinstance(x, error.SubstrateUnderrunError) or x is None:
            s.avail=min(len(data), s.avail+step)
        else: out.append(x.prettyPrint() if hasattr(x,'prettyPrint') else repr(x))
    return out
bs=bere.encode(univ.BitString('1010101'))
t('NB bitstring step1', lambda: drive(bs,1))
os_=bere.encode(univ.OctetString('abc'))+bere.encode(univ.Integer(5))
t('NB two items step1', lambda: drive(os_,1))
sq=bere.encode(univ.SequenceOf(componentType=univ.OctetString()).setComponents('ab','cd'), defMode=False, maxChunkSize=1)
t('NB seqof indef chunked step1', lambda: drive(sq,1))
t('NB seqof indef chunked step3', lambda: drive(sq,3))
# non-seekable w/ caching wrapper, returns None
class NS(NB):
    def seekable(self): return False
def drive2(data, step):
    s=NS(data,[]); out=[]
    it=iter(berd.StreamingDecoder(s))
    n=0
    while True:
        n+=1
        if n>1000: out.append('LOOP'); break
        try: x=next(it)
        except StopIteration: break
        except Exception as e: out.append('%s:%s'%(type(e).__name__, e)); break
        if isinstance(x, error.SubstrateUnderrunError) or x is None:
            s.avail=min(len(data), s.avail+step)
        else: out.append(x.prettyPrint())
    return out
t('NS wrapper step1', lambda: drive2(os_,1))
# C11 big element through wrapper
class NS2(io.RawIOBase):
    def __init__(self,d): self.b=io.BytesIO(d)
    def seekable(self): return False
    def readable(self): return True
    def read(self,n=-1): return self.b.read(n)
big=bere.encode(univ.SequenceOf(componentType=univ.OctetString()).setComponents(*[b'x'*100]*200))
t('big via wrapper', lambda: berd.decode(NS2(big))[0]==berd.decode(big)[0])
big2=bere.encode(univ.SequenceOf(componentType=univ.Any()).setComponents(*[bere.encode(univ.OctetString(b'x'*100))]*200))
t('big any via wrapper', lambda: berd.decode(NS2(big2), asn1Spec=univ.SequenceOf(componentType=univ.Any()))[0]==berd.decode(big2, asn1Spec=univ.SequenceOf(componentType=univ.Any()))[0])

# ---- from e4.py
import io, traceback, datetime, os
from pyasn1.type import univ, char, useful, namedtype, tag, constraint, opentype
from pyasn1.codec.ber import encoder as bere, decoder as berd
from pyasn1.codec.cer import encoder as cere, decoder as cerd
from pyasn1.codec.der import encoder as dere, decoder as derd
from pyasn1.codec.native import encoder as nate, decoder as natd
from pyasn1 import error
def t(name, f):
    try:
        r = f()
        print('%-40s -> %r' % (name, r))
    except BaseException as e:
        print('%-40s !! %s: %s' % (name, type(e).__name__, str(e)[:120]))
# C18
inner = univ.SequenceOf(componentType=univ.Integer())
ot = opentype.OpenType('id', {1: univ.Integer(), 2: inner})
def mk(anyType):
    class S(univ.Sequence):
        componentType = namedtype.NamedTypes(
            namedtype.NamedType('id', univ.Integer()),
            namedtype.NamedType('blob', anyType, openType=ot))
    return S
for nm, anyT in (('untagged', univ.Any()), ('implicit', univ.Any().subtype(implicitTag=tag.Tag(tag.tagClassContext, tag.tagFormatSimple, 3))), ('explicit', univ.Any().subtype(explicitTag=tag.Tag(tag.tagClassContext, tag.tagFormatSimple, 3)))):
    S = mk(anyT)
    s = S(); s['id']=2; s['blob']=inner.clone().setComponents(1,2)
    for cn, enc, dec, kw in (('berdef', bere, berd, {}), ('berindef', bere, berd, {'defMode':False}), ('cer', cere, cerd, {}), ('der', dere, derd, {})):
        def f():
            e = enc.encode(s, **kw)
            v, rest = dec.decode(e, asn1Spec=S(), decodeOpenTypes=True)
            v2, rest2 = dec.decode(e, asn1Spec=S())
            return (v['blob'].prettyPrint().replace('\n',' '), rest, v2['blob'].asOctets().hex())
        t('opentype %s %s'%(nm,cn), f)
# C04
class R(univ.Sequence):
    componentType = namedtype.NamedTypes(
        namedtype.NamedType('id', univ.Integer()),
        namedtype.DefaultedNamedType('house', univ.Integer(0)))
a=R(); a['id']=1
b=R(); b['id']=1; b['house']=0
t('default explicit vs omitted der', lambda: (dere.encode(a), dere.encode(b)))
so1=univ.SetOf(componentType=univ.Integer()); so1.extend([3,1,2])
so2=univ.SetOf(componentType=univ.Integer()); so2.extend([1,2,3])
t('setof order der', lambda: dere.encode(so1)==dere.encode(so2))
# nested default constructed
class Inner(univ.Sequence):
    componentType = namedtype.NamedTypes(namedtype.DefaultedNamedType('x', univ.Integer(5)))
class Outer(univ.Sequence):
    componentType = namedtype.NamedTypes(namedtype.DefaultedNamedType('in', Inner().setComponentByPosition(0,5)), namedtype.NamedType('y', univ.Integer()))
o=Outer(); o['y']=1
t('outer enc', lambda: dere.encode(o))
t('outer dec-enc', lambda: dere.encode(derd.decode(dere.encode(o), asn1Spec=Outer())[0]))
o2=Outer(); o2['y']=1; o2['in']['x']=5
t('outer explicit default enc', lambda: dere.encode(o2))
# C13
x=univ.Integer(1).subtype(implicitTag=tag.Tag(tag.tagClassContext, tag.tagFormatConstructed, 40000))
t('implicit big tag', lambda: bere.encode(x).hex())
t('implicit big tag dec', lambda: berd.decode(bere.encode(x), asn1Spec=x))
y=univ.Sequence().subtype(implicitTag=tag.Tag(tag.tagClassContext, tag.tagFormatSimple, 1))
t('seq implicit simple fmt', lambda: y.tagSet)
t('explicit universal', lambda: univ.Integer().subtype(explicitTag=tag.Tag(tag.tagClassUniversal, 0, 5)))
t('implicit on untagged (choice)', lambda: univ.Choice().subtype(implicitTag=tag.Tag(tag.tagClassContext, 0, 5)).tagSet)
# near miss decode
z=univ.Integer().subtype(explicitTag=tag.Tag(tag.tagClassContext, tag.tagFormatSimple, 1)).subtype(implicitTag=tag.Tag(tag.tagClassApplication,0,2))
z1=univ.Integer(7).subtype(explicitTag=tag.Tag(tag.tagClassContext, tag.tagFormatSimple, 1)).subtype(implicitTag=tag.Tag(tag.tagClassApplication,0,3))
t('near-miss reject', lambda: berd.decode(bere.encode(z1), asn1Spec=z))
z2=univ.Integer(7).subtype(explicitTag=tag.Tag(tag.tagClassContext, tag.tagFormatSimple, 1)).subtype(explicitTag=tag.Tag(tag.tagClassApplication,0,3))
zz=univ.Integer().subtype(explicitTag=tag.Tag(tag.tagClassContext, tag.tagFormatSimple, 2)).subtype(explicitTag=tag.Tag(tag.tagClassApplication,0,3))
t('near-miss inner reject', lambda: berd.decode(bere.encode(z2), asn1Spec=zz))
# C14
I=univ.Integer().subtype(subtypeSpec=constraint.ValueRangeConstraint(1,5))
t('I(5)+1', lambda: I.clone(5)+1)
J=I.subtype(subtypeSpec=constraint.ValueRangeConstraint(2,3))
t('I super of J', lambda: I.isSuperTypeOf(J))
t('J super of I', lambda: J.isSuperTypeOf(I))
t('sizeSpec legacy', lambda: univ.SequenceOf(componentType=univ.Integer(), subtypeSpec=constraint.ConstraintsIntersection(constraint.ValueSizeConstraint(0,1)), sizeSpec=constraint.ConstraintsIntersection(constraint.ValueSizeConstraint(0,5))).subtypeSpec)
# C17
t('native bitstring empty', lambda: natd.decode(nate.encode(univ.BitString('')), asn1Spec=univ.BitString()) == univ.BitString(''))
t('native bitstring lead0', lambda: natd.decode(nate.encode(univ.BitString('0010')), asn1Spec=univ.BitString()) == univ.BitString('0010'))
so=univ.SequenceOf(componentType=univ.Integer()); so.extend([1,2])
t('native seqof', lambda: natd.decode(nate.encode(so), asn1Spec=so.clone())==so)
c=univ.Choice(componentType=namedtype.NamedTypes(namedtype.NamedType('a',univ.Integer()),namedtype.NamedType('b',univ.OctetString())))
c['b']=b'xy'
t('native choice', lambda: (nate.encode(c), natd.decode(nate.encode(c), asn1Spec=c.clone())==c))
t('py choice enc', lambda: bere.encode({'b': b'xy'}, asn1Spec=c.clone())==bere.encode(c))
# C16
t('schemaless nested', lambda: berd.decode(bere.encode(o))[0].prettyPrint())
one=univ.Sequence(componentType=namedtype.NamedTypes(namedtype.NamedType('a',univ.Integer()))); one['a']=1
t('schemaless single seq reenc', lambda: (dere.encode(berd.decode(dere.encode(one))[0])==dere.encode(one), type(berd.decode(dere.encode(one))[0]).__name__))

# ---- from e5.py
from pyasn1.type import univ, char, useful, namedtype, tag, constraint, opentype
from pyasn1.codec.ber import encoder as bere, decoder as berd
from pyasn1 import error
def t(name, f):
    try:
        r = f()
        print('%-40s -> %r' % (name, r))
    except BaseException as e:
        print('%-40s !! %s: %s' % (name, type(e).__name__, str(e)[:120]))
t('nested def constructed octets', lambda: berd.decode(bytes([0x24,7,0x24,5,4,3,0x61,0x62,0x63])))
t('nested indef constructed octets', lambda: berd.decode(bytes([0x24,0x80,0x24,0x80,4,3,0x61,0x62,0x63,0,0,0,0])))
t('nested def-in-indef constructed octets', lambda: berd.decode(bytes([0x24,0x80,0x24,5,4,3,0x61,0x62,0x63,0,0])))
class R(univ.Sequence):
    componentType = namedtype.NamedTypes(
        namedtype.NamedType('id', univ.Integer()),
        namedtype.OptionalNamedType('room', univ.Integer().subtype(implicitTag=tag.Tag(tag.tagClassContext, tag.tagFormatSimple, 0))),
        namedtype.DefaultedNamedType('house', univ.Integer(0).subtype(implicitTag=tag.Tag(tag.tagClassContext, tag.tagFormatSimple, 1))))
class D(univ.Sequence):
    componentType = namedtype.NamedTypes(
        namedtype.NamedType('a', univ.Integer()),
        namedtype.NamedType('b', univ.Integer()))
t('excess indef nondet', lambda: berd.decode(bytes([0x30,0x80,2,1,1,0x80,1,2,0x81,1,3,2,1,9,0,0]), asn1Spec=R()))
t('excess def nondet', lambda: berd.decode(bytes([0x30,12,2,1,1,0x80,1,2,0x81,1,3,2,1,9]), asn1Spec=R()))
t('excess indef det', lambda: berd.decode(bytes([0x30,0x80,2,1,1,2,1,2,2,1,3,0,0]), asn1Spec=D()))
t('excess def det', lambda: berd.decode(bytes([0x30,9,2,1,1,2,1,2,2,1,3]), asn1Spec=D()))
I=univ.Integer().subtype(subtypeSpec=constraint.ValueRangeConstraint(1,5))
J=I.subtype(subtypeSpec=constraint.ValueRangeConstraint(2,3))
class P(univ.Sequence):
    componentType = namedtype.NamedTypes(namedtype.NamedType('a', I))
p=P()
t('assign subtype value to parent field', lambda: p.setComponentByName('a', J.clone(2)))
K=univ.Integer().subtype(subtypeSpec=constraint.ValueRangeConstraint(2,3))
t('assign K (no parent constraints) to I field', lambda: p.setComponentByName('a', K.clone(2)))

# ---- streaming CHOICE in indefinite form, one byte at a time (uses NB/drive defined above)
c = univ.Choice(componentType=namedtype.NamedTypes(
        namedtype.NamedType('a', univ.Integer()),
        namedtype.NamedType('b', univ.OctetString()))).subtype(
            explicitTag=tag.Tag(tag.tagClassContext, tag.tagFormatConstructed, 1))
c['a'] = 5
e = bere.encode(c, defMode=False)
t('NB indef tagged CHOICE step1', lambda: drive(e, 1, spec=c.clone()))
t('NB indef tagged CHOICE step100', lambda: drive(e, 100, spec=c.clone()))
